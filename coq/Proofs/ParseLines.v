(* Line numbers and spans of the entry iterator (C14): an entry's line_start is 1 + the number
   of line feeds in the text before it, counted on bytes by the code and on characters here
   (a byte 10 never occurs inside a multi-byte UTF-8 sequence); tracked spans lie inside the
   entry span and ParsedSpan::resolve (clip) never underflows; a syntax error's line_start
   and offsets refer to the original text. *)
From Coq Require Import List NArith ZArith Bool Lia Arith.
From Okv Require Import Model.Lit Model.Syntax Model.Comb Model.ParseExpr Model.ParseMeta
  Model.ParsePosting Model.ParseTxn Model.ParseDirective Model.ParseLedger
  Proofs.CombSpec Proofs.ParseSafe Proofs.ParseTotal Proofs.ParseSpans.
Import ListNotations.
Open Scope N_scope.

(* number of line feeds among the characters *)
Fixpoint count_lf (s : list N) : N :=
  match s with [] => 0 | c :: r => (if c =? 10 then 1 else 0) + count_lf r end.

Lemma count_nl_app : forall a b, count_nl (a ++ b) = count_nl a + count_nl b.
Proof. induction a; intros; simpl; [reflexivity | rewrite IHa; lia]. Qed.

(* the encoding of a character contains the byte 10 exactly when the character is U+000A *)
Lemma count_nl_encode1 : forall c, count_nl (utf8_encode1 c) = if c =? 10 then 1 else 0.
Proof.
  intros c. unfold utf8_encode1.
  assert (F : forall x, 128 <= x -> (x =? 10) = false) by (intros; apply N.eqb_neq; lia).
  destruct (N.ltb_spec c 128).
  - cbn [count_nl]. rewrite N.add_0_r. reflexivity.
  - rewrite (F c) by assumption.
    destruct (N.ltb_spec c 2048); [| destruct (N.ltb_spec c 65536)]; cbn [count_nl];
      rewrite !F by (eapply N.le_trans; [| apply N.le_add_r]; lia); reflexivity.
Qed.

Lemma count_nl_encode : forall s, count_nl (utf8_encode s) = count_lf s.
Proof.
  unfold utf8_encode. induction s; simpl; [reflexivity |].
  rewrite count_nl_app, count_nl_encode1, IHs. reflexivity.
Qed.

Lemma utf8_encode_app : forall a b, utf8_encode (a ++ b) = utf8_encode a ++ utf8_encode b.
Proof. intros. unfold utf8_encode. apply flat_map_app. Qed.

Lemma firstn_encode_prefix : forall pre rest,
  firstn (N.to_nat (utf8_len pre)) (utf8_encode (pre ++ rest)) = utf8_encode pre.
Proof.
  intros. rewrite utf8_encode_app. rewrite <- blen_utf8_encode. unfold blen.
  rewrite Nat2N.id. rewrite firstn_app, Nat.sub_diag, firstn_all. simpl. apply app_nil_r.
Qed.

Lemma line_of_prefix : forall pre rest,
  compute_line_number (utf8_encode (pre ++ rest)) (utf8_len pre) = Some (1 + count_lf pre).
Proof.
  intros. unfold compute_line_number. rewrite blen_utf8_encode, utf8_len_app.
  destruct (N.leb_spec (utf8_len pre) (utf8_len pre + utf8_len rest)); [| lia].
  rewrite firstn_encode_prefix, count_nl_encode. reflexivity.
Qed.

(* ---- what holds of every entry the iterator yields ---- *)
Definition aspan_in (outer inner : span) : Prop :=
  fst outer <= fst inner /\ fst inner <= snd inner /\ snd inner <= snd outer.
Definition oaspan_in (outer : span) (o : option span) : Prop :=
  match o with Some t => aspan_in outer t | None => True end.
Definition pspans_in (outer : span) (p : pspans) : Prop :=
  aspan_in outer (a_posting p) /\ aspan_in outer (a_account p) /\ oaspan_in outer (a_amount p) /\
  oaspan_in outer (a_cost p) /\ oaspan_in outer (a_lot_price p) /\ oaspan_in outer (a_balance p).

Definition entry_ok (s : list N) (e : parsed_entry) : Prop :=
  (exists pre mid post, s = pre ++ mid ++ post /\
     e_span e = (utf8_len pre, utf8_len pre + utf8_len mid) /\
     e_line_start e = 1 + count_lf pre) /\
  Forall (pspans_in (e_span e)) (e_spans e).

Lemma abs_bnd : forall total hi lo sp,
  bnd hi lo sp -> hi <= total ->
  aspan_in (total - hi, total - lo) (abs_span total sp).
Proof.
  unfold bnd, aspan_in, abs_span. intros total hi lo [x y] (H1 & H2 & H3) Ht. simpl in *. lia.
Qed.
Lemma abs_obnd : forall total hi lo o,
  obnd hi lo o -> hi <= total ->
  oaspan_in (total - hi, total - lo) (option_map (abs_span total) o).
Proof. destruct o; simpl; auto using abs_bnd. Qed.

Lemma abs_pspans_ok : forall total hi lo ps,
  pspans_ok hi lo ps -> hi <= total -> pspans_in (total - hi, total - lo) (abs_pspans total ps).
Proof.
  unfold pspans_ok, pspans_in, abs_pspans. intros total hi lo ps (H1 & H2 & H3 & H4 & H5 & H6) Ht.
  cbn [a_posting a_account a_amount a_cost a_lot_price a_balance].
  split; [| split; [| split; [| split; [| split]]]];
    first [apply abs_bnd; assumption | apply abs_obnd; assumption].
Qed.

Lemma suffix_split : forall r i, suffix r i -> exists p, i = p ++ r.
Proof. intros r i H; exact H. Qed.

Definition result_entries (r : ledger_result) : list parsed_entry :=
  match r with LOk es | LErr es _ => es | _ => [] end.

(* every byte of the error span lies on the line of the error offset: the span is one
   character, and only its first byte can be a line feed (then it is the whole character) *)
Definition span_one_line (rest : list N) (sp : span) : Prop :=
  forall k, fst sp <= k -> k < snd sp ->
    count_nl (firstn (N.to_nat k) (utf8_encode rest)) =
    count_nl (firstn (N.to_nat (fst sp)) (utf8_encode rest)).

Definition error_ok (s : list N) (r : ledger_result) : Prop :=
  match r with
  | LErr _ e =>
      exists pre rest, s = pre ++ rest /\
        pe_text_start e = utf8_len pre /\
        pe_line_start e = 1 + count_lf pre /\
        fst (pe_span e) <= snd (pe_span e) /\
        snd (pe_span e) <= utf8_len rest /\
        span_one_line rest (pe_span e)
  | _ => True
  end.


(* ---- the error span stays on the line where parsing stopped ---- *)
Lemma skipn_encode_prefix : forall pre rest,
  skipn (N.to_nat (utf8_len pre)) (utf8_encode (pre ++ rest)) = utf8_encode rest.
Proof.
  intros. rewrite utf8_encode_app. rewrite <- blen_utf8_encode. unfold blen.
  rewrite Nat2N.id. rewrite skipn_app, skipn_all, Nat.sub_diag. reflexivity.
Qed.

Definition nl_at (bs : list N) (j : nat) : N :=
  match nth_error bs j with Some b => if b =? 10 then 1 else 0 | None => 0 end.

Lemma count_nl_firstn_S : forall bs j,
  count_nl (firstn (S j) bs) = count_nl (firstn j bs) + nl_at bs j.
Proof.
  unfold nl_at. induction bs as [| b r IH]; intros j.
  - destruct j; reflexivity.
  - destruct j as [| j'].
    + cbn [firstn count_nl nth_error]. lia.
    + change (firstn (S (S j')) (b :: r)) with (b :: firstn (S j') r).
      change (firstn (S j') (b :: r)) with (b :: firstn j' r).
      cbn [count_nl nth_error]. rewrite IH. lia.
Qed.

Lemma count_nl_firstn_const : forall bs a d,
  (forall j, (a <= j < a + d)%nat -> nl_at bs j = 0) ->
  count_nl (firstn (a + d) bs) = count_nl (firstn a bs).
Proof.
  intros bs a. induction d as [| d IH]; intros H.
  - rewrite Nat.add_0_r. reflexivity.
  - rewrite Nat.add_succ_r, count_nl_firstn_S, IH, H; [lia | lia |].
    intros j Hj. apply H. lia.
Qed.

Lemma find_boundary_between : forall n bs e0 x,
  find_boundary n bs e0 = Some x -> forall y, e0 <= y -> y < x -> is_char_boundary bs y = false.
Proof.
  induction n; simpl; intros bs e0 x Hx y H1 H2; [discriminate |].
  destruct (is_char_boundary bs e0) eqn:E.
  - inversion Hx; subst. lia.
  - destruct (N.eq_dec y e0) as [-> | Hne]; [exact E |].
    apply (IHn bs (e0 + 1) x Hx); lia.
Qed.

(* a position that is not a character boundary holds a continuation byte (or lies beyond the end) *)
Lemma not_boundary_byte : forall bs y, is_char_boundary bs y = false ->
  match nth_error bs (N.to_nat y) with Some b => 128 <= b /\ b < 192 | None => y <> blen bs end.
Proof.
  intros bs y H. unfold is_char_boundary in H.
  destruct (y =? 0); [discriminate |].
  destruct (nth_error bs (N.to_nat y)) as [b |].
  - apply Bool.orb_false_iff in H. destruct H as [H1 H2].
    apply N.ltb_ge in H1. apply N.leb_gt in H2. split; assumption.
  - apply N.eqb_neq in H. exact H.
Qed.

(* the first byte of a character's encoding is an ASCII byte that is the whole encoding, or a lead byte *)
Lemma encode1_head : forall c, exists b l, utf8_encode1 c = b :: l /\ ((b < 128 /\ l = []) \/ 192 <= b).
Proof.
  intros c. unfold utf8_encode1.
  destruct (N.ltb_spec c 128); [exists c, []; split; [reflexivity | left; split; [assumption | reflexivity]] |].
  destruct (N.ltb_spec c 2048); [| destruct (N.ltb_spec c 65536)];
    eexists; eexists; (split; [reflexivity | right; eapply N.le_trans; [| apply N.le_add_r]; lia]).
Qed.

(* if the byte after the start of a character is a continuation byte, the character is not ASCII:
   its first byte is not a line feed *)
Lemma lead_not_lf : forall p stopped b1,
  nth_error (utf8_encode p ++ utf8_encode stopped) (S (length (utf8_encode p))) = Some b1 ->
  128 <= b1 -> b1 < 192 ->
  nl_at (utf8_encode p ++ utf8_encode stopped) (length (utf8_encode p)) = 0.
Proof.
  intros p stopped b1 H L1 L2. unfold nl_at.
  rewrite nth_error_app2 in * by lia.
  rewrite Nat.sub_diag. replace (S (length (utf8_encode p)) - length (utf8_encode p))%nat with 1%nat in H by lia.
  destruct stopped as [| c tl]; [discriminate |].
  change (utf8_encode (c :: tl)) with (utf8_encode1 c ++ utf8_encode tl) in *.
  destruct (encode1_head c) as (b & l & E & [[Hb Hl] | Hb]); rewrite E in *.
  - subst l. cbn [app nth_error] in H.
    destruct tl as [| c2 tl2]; [discriminate |].
    change (utf8_encode (c2 :: tl2)) with (utf8_encode1 c2 ++ utf8_encode tl2) in H.
    destruct (encode1_head c2) as (b2 & l2 & E2 & [[Hb2 _] | Hb2]); rewrite E2 in H;
      cbn [app nth_error] in H; inversion H; subst; lia.
  - cbn [app nth_error]. destruct (N.eqb_spec b 10); [lia | reflexivity].
Qed.

Lemma parse_error_new_one_line : forall s pre rest stopped cut lbl e,
  s = pre ++ rest -> suffix stopped rest ->
  parse_error_new (utf8_encode s) (utf8_len s) rest stopped cut lbl = Some e ->
  span_one_line rest (pe_span e).
Proof.
  intros s pre rest stopped cut lbl e -> [p Hp] H. unfold parse_error_new in H.
  rewrite utf8_len_app in H.
  replace (utf8_len pre + utf8_len rest - utf8_len rest) with (utf8_len pre) in H by lia.
  rewrite line_of_prefix, skipn_encode_prefix in H.
  set (offset := utf8_len rest - utf8_len stopped) in *.
  assert (Hoff : offset = N.of_nat (length (utf8_encode p))).
  { unfold offset. rewrite Hp, utf8_len_app. fold (blen (utf8_encode p)). rewrite blen_utf8_encode. lia. }
  assert (Henc : utf8_encode rest = utf8_encode p ++ utf8_encode stopped) by (rewrite Hp; apply utf8_encode_app).
  destruct (find_boundary (N.to_nat (blen (utf8_encode rest) - offset)) (utf8_encode rest) (offset + 1)) as [x |] eqn:E;
    inversion H; subst e; unfold span_one_line; cbn [pe_span fst snd]; intros k K1 K2; [| lia].
  pose proof (find_boundary_between _ _ _ _ E) as NB.
  replace (N.to_nat k) with (N.to_nat offset + (N.to_nat k - N.to_nat offset))%nat by lia.
  apply count_nl_firstn_const. intros j Hj.
  destruct (Nat.eq_dec j (N.to_nat offset)) as [-> | Hne].
  - (* the first byte of the span, when the span is longer than one byte *)
    assert (B1 : is_char_boundary (utf8_encode rest) (offset + 1) = false) by (apply NB; lia).
    apply not_boundary_byte in B1.
    replace (N.to_nat (offset + 1)) with (S (length (utf8_encode p))) in B1 by lia.
    replace (N.to_nat offset) with (length (utf8_encode p)) by lia.
    rewrite Henc in *.
    destruct (nth_error (utf8_encode p ++ utf8_encode stopped) (S (length (utf8_encode p)))) as [b1 |] eqn:E1.
    + destruct B1. eapply lead_not_lf; eassumption.
    + unfold nl_at. apply nth_error_None in E1.
      destruct (nth_error (utf8_encode p ++ utf8_encode stopped) (length (utf8_encode p))) as [b0 |] eqn:E0; [| reflexivity].
      exfalso. assert (length (utf8_encode p) < length (utf8_encode p ++ utf8_encode stopped))%nat
        by (apply nth_error_Some; congruence).
      apply B1. unfold blen. lia.
  - (* a later byte: a continuation byte *)
    assert (B : is_char_boundary (utf8_encode rest) (N.of_nat j) = false) by (apply NB; lia).
    apply not_boundary_byte in B. rewrite Nat2N.id in B. unfold nl_at.
    destruct (nth_error (utf8_encode rest) j) as [b |]; [| reflexivity].
    destruct B. destruct (N.eqb_spec b 10); [lia | reflexivity].
Qed.

Lemma parse_error_new_ok : forall s pre rest stopped cut lbl e,
  s = pre ++ rest -> suffix stopped rest ->
  parse_error_new (utf8_encode s) (utf8_len s) rest stopped cut lbl = Some e ->
  pe_text_start e = utf8_len pre /\ pe_line_start e = 1 + count_lf pre /\
  fst (pe_span e) <= snd (pe_span e) /\ snd (pe_span e) <= utf8_len rest.
Proof.
  intros s pre rest stopped cut lbl e -> Hs H. unfold parse_error_new in H.
  rewrite utf8_len_app in H.
  replace (utf8_len pre + utf8_len rest - utf8_len rest) with (utf8_len pre) in H by lia.
  rewrite line_of_prefix in H.
  set (snippet := skipn (N.to_nat (utf8_len pre)) (utf8_encode (pre ++ rest))) in *.
  set (offset := utf8_len rest - utf8_len stopped) in *.
  assert (Hsn : blen snippet = utf8_len rest).
  { unfold snippet, blen. rewrite skipn_length. fold (blen (utf8_encode (pre ++ rest))).
    assert (B := blen_utf8_encode (pre ++ rest)). unfold blen in B.
    rewrite utf8_len_app in B. lia. }
  assert (Hoff : offset <= utf8_len rest) by (unfold offset; lia).
  (* the boundary search returns something in (offset, offset + n] *)
  assert (FB : forall n bs e0 x, find_boundary n bs e0 = Some x -> e0 <= x /\ x < e0 + N.of_nat n).
  { induction n; simpl; intros bs e0 x Hx; [discriminate |].
    destruct (is_char_boundary bs e0).
    - inversion Hx; subst. lia.
    - apply IHn in Hx. lia. }
  destruct (find_boundary (N.to_nat (blen snippet - offset)) snippet (offset + 1)) as [x |] eqn:E;
    inversion H; subst; cbn [pe_text_start pe_line_start pe_span fst snd].
  - apply FB in E. rewrite N2Nat.id, Hsn in E. repeat split; lia.
  - repeat split; lia.
Qed.

Lemma entries_loop_ok : forall s n i acc,
  suffix i s -> (length i < n)%nat -> Forall (entry_ok s) acc ->
  Forall (entry_ok s) (result_entries (entries_loop (length s) n (utf8_encode s) (utf8_len s) i acc)) /\
  error_ok s (entries_loop (length s) n (utf8_encode s) (utf8_len s) i acc).
Proof.
  intros s. induction n; intros i acc Hs Hn Hacc; [lia |].
  assert (Hi : (length i <= length s)%nat) by (now apply suffix_length).
  destruct (suffix_split _ _ Hs) as [pre0 Hpre0].
  simpl.
  pose proof (safe_vertical_space (length s) (length s) (le_n _) i Hi) as Hv.
  destruct (vertical_space (length s) i) as [u r | c l st | |]; try contradiction.
  2: { destruct (parse_error_new (utf8_encode s) (utf8_len s) i st c l) as [e |] eqn:E; simpl.
       - split; [apply Forall_rev; assumption |].
         destruct (parse_error_new_ok s pre0 i st c l e Hpre0 Hv E) as (A & B & C & D).
         pose proof (parse_error_new_one_line s pre0 i st c l e Hpre0 Hv E) as F.
         exact (ex_intro _ pre0 (ex_intro _ i (conj Hpre0 (conj A (conj B (conj C (conj D F))))))).
       - split; [constructor | exact I]. }
  destruct Hv as [Hr _].
  destruct r as [| c0 r0]; [simpl; split; [apply Forall_rev; assumption | exact I] |].
  set (r := c0 :: r0) in *.
  assert (Hrl : (length r <= length s)%nat) by (apply suffix_length in Hr; lia).
  pose proof (parse_ledger_entry_spans (length s) (length s) (le_n _) r Hrl) as He.
  unfold with_span.
  destruct (parse_ledger_entry (length s) r) as [[e sps] r' | c l st | |]; try contradiction.
  2: { destruct (parse_error_new (utf8_encode s) (utf8_len s) i st c l) as [e |] eqn:E; simpl.
       - split; [apply Forall_rev; assumption |].
         assert (Hst : suffix st i) by (eapply suffix_trans; eauto).
         destruct (parse_error_new_ok s pre0 i st c l e Hpre0 Hst E) as (A & B & C & D).
         pose proof (parse_error_new_one_line s pre0 i st c l e Hpre0 Hst E) as F.
         exact (ex_intro _ pre0 (ex_intro _ i (conj Hpre0 (conj A (conj B (conj C (conj D F))))))).
       - split; [constructor | exact I]. }
  destruct He as [Hr' [Hlt Hsp]]. cbn [snd] in Hsp.
  cbn [abs_span fst snd].
  (* decompose the text around the entry *)
  assert (Hrs : suffix r s) by (eapply suffix_trans; eauto).
  destruct (suffix_split _ _ Hrs) as [pre Hpre].
  destruct (suffix_split _ _ Hr') as [mid Hmid].
  assert (Ltot : utf8_len s = utf8_len pre + utf8_len mid + utf8_len r')
    by (rewrite Hpre, utf8_len_app, Hmid, utf8_len_app; lia).
  assert (Lr : utf8_len r = utf8_len mid + utf8_len r') by (rewrite Hmid, utf8_len_app; lia).
  replace (utf8_len s - utf8_len r) with (utf8_len pre) by lia.
  assert (LN : compute_line_number (utf8_encode s) (utf8_len pre) = Some (1 + count_lf pre))
    by (rewrite Hpre; apply line_of_prefix).
  rewrite LN.
  rewrite consumed_true by assumption.
  apply IHn.
  - eapply suffix_trans; eassumption.
  - apply suffix_length in Hr. lia.
  - constructor; [| assumption]. split; cbn [e_span e_line_start e_spans].
    + exists pre, mid, r'. split; [rewrite Hpre, Hmid; reflexivity |].
      split; [unfold abs_span; cbn [fst snd]; f_equal; lia | reflexivity].
    + rewrite Forall_map. eapply Forall_impl; [| exact Hsp].
      intros ps Hps. cbv beta in Hps.
      unfold abs_span; cbn [fst snd].
      apply abs_pspans_ok; [exact Hps | lia].
Qed.

Theorem parse_entries_ok : forall s, Forall (entry_ok s) (result_entries (parse_ledger s)).
Proof.
  intros s. unfold parse_ledger.
  apply entries_loop_ok; [apply suffix_refl | lia | constructor].
Qed.

Theorem parse_error_ok : forall s, error_ok s (parse_ledger s).
Proof.
  intros s. unfold parse_ledger.
  apply entries_loop_ok; [apply suffix_refl | lia | constructor].
Qed.

(* ---- consequences in the form used by Props/C14.v ---- *)
Definition spans_of (p : pspans) : list span :=
  a_posting p :: a_account p ::
  (match a_amount p with Some t => [t] | None => [] end) ++
  (match a_cost p with Some t => [t] | None => [] end) ++
  (match a_lot_price p with Some t => [t] | None => [] end) ++
  (match a_balance p with Some t => [t] | None => [] end).

Lemma pspans_in_all : forall outer p, pspans_in outer p -> forall t, In t (spans_of p) -> aspan_in outer t.
Proof.
  intros outer p (H1 & H2 & H3 & H4 & H5 & H6) t Ht. unfold spans_of in Ht.
  destruct Ht as [<- | [<- | Ht]]; auto.
  repeat (apply in_app_or in Ht; destruct Ht as [Ht | Ht]);
    match type of Ht with
    | In _ (match ?o with _ => _ end) => destruct o; simpl in *; intuition (subst; auto)
    end.
Qed.

Lemma clip_inside : forall outer t, aspan_in outer t ->
  clip outer t = Some (fst t - fst outer, snd t - fst outer).
Proof.
  intros [a b] [x y] (H1 & H2 & H3). unfold clip. cbn [fst snd] in *.
  rewrite N.max_r by lia. rewrite N.min_r by lia.
  destruct (N.leb_spec a x); [| lia]. destruct (N.leb_spec a y); [| lia]. reflexivity.
Qed.

Lemma shown_line : forall pre rest k,
  count_nl (firstn (N.to_nat (utf8_len pre + k)) (utf8_encode (pre ++ rest))) =
  count_lf pre + count_nl (firstn (N.to_nat k) (utf8_encode rest)).
Proof.
  intros. rewrite utf8_encode_app. rewrite N2Nat.inj_add.
  rewrite <- (blen_utf8_encode pre). unfold blen. rewrite Nat2N.id.
  rewrite firstn_app_2, count_nl_app, count_nl_encode. reflexivity.
Qed.

Theorem line_start_of_entry : forall s e, In e (result_entries (parse_ledger s)) ->
  exists pre mid post, s = pre ++ mid ++ post /\
    e_span e = (utf8_len pre, utf8_len pre + utf8_len mid) /\
    e_line_start e = 1 + count_lf pre.
Proof.
  intros s e H. pose proof (parse_entries_ok s) as A. rewrite Forall_forall in A.
  destruct (A e H) as [B _]. exact B.
Qed.

Theorem spans_inside_entry : forall s e p t,
  In e (result_entries (parse_ledger s)) -> In p (e_spans e) -> In t (spans_of p) ->
  aspan_in (e_span e) t /\ clip (e_span e) t = Some (fst t - fst (e_span e), snd t - fst (e_span e)).
Proof.
  intros s e p t He Hp Ht. pose proof (parse_entries_ok s) as A. rewrite Forall_forall in A.
  destruct (A e He) as [_ B]. rewrite Forall_forall in B.
  pose proof (pspans_in_all _ _ (B p Hp) t Ht) as C. split; [exact C | now apply clip_inside].
Qed.

Theorem parse_error_lines : forall s es e, parse_ledger s = LErr es e ->
  exists pre rest, s = pre ++ rest /\
    pe_text_start e = utf8_len pre /\
    pe_line_start e = 1 + count_lf pre /\
    fst (pe_span e) <= snd (pe_span e) /\ snd (pe_span e) <= utf8_len rest /\
    (* the line the renderer shows for the error offset is its line in the original text *)
    pe_line_start e + count_nl (firstn (N.to_nat (fst (pe_span e))) (utf8_encode rest)) =
    1 + count_nl (firstn (N.to_nat (pe_text_start e + fst (pe_span e))) (utf8_encode s)).
Proof.
  intros s es e H. pose proof (parse_error_ok s) as A. rewrite H in A.
  destruct A as (pre & rest & E & A1 & A2 & A3 & A4 & _).
  exists pre, rest. repeat (split; [assumption |]).
  rewrite A1, A2.
  replace (utf8_encode s) with (utf8_encode (pre ++ rest)) by (rewrite <- E; reflexivity).
  rewrite shown_line. lia.
Qed.

(* every byte of the error span - the one character a renderer underlines - is on the line of
   the error offset, so the only line shown is the line where parsing stopped *)
Theorem parse_error_one_line : forall s es e, parse_ledger s = LErr es e ->
  exists pre rest, s = pre ++ rest /\
    pe_text_start e = utf8_len pre /\
    forall k, fst (pe_span e) <= k -> k < snd (pe_span e) ->
      pe_line_start e + count_nl (firstn (N.to_nat k) (utf8_encode rest)) =
      1 + count_nl (firstn (N.to_nat (pe_text_start e + fst (pe_span e))) (utf8_encode s)).
Proof.
  intros s es e H. pose proof (parse_error_ok s) as A. rewrite H in A.
  destruct A as (pre & rest & E & A1 & A2 & A3 & A4 & A5).
  exists pre, rest. split; [assumption |]. split; [assumption |].
  intros k K1 K2. rewrite (A5 k K1 K2). rewrite A1, A2.
  replace (utf8_encode s) with (utf8_encode (pre ++ rest)) by (rewrite <- E; reflexivity).
  rewrite shown_line. lia.
Qed.
