(* The book-keeping model invents no identity: if every account id of the state and of the
   transaction satisfies P, and every commodity id satisfies Q, so does every id of the state
   after add_transaction.  Used by property C12 (P, Q := "is canonical in the store"). *)
From Coq Require Import List NArith ZArith Bool QArith Qcanon Lia.
From Okv Require Import Base.Maps Base.Dec Model.Amount Model.Book Proofs.EvalProofs.
Import ListNotations.
Open Scope N_scope.

Fixpoint v_comms (v : vexpr) : list N :=
  match v with VParen e => e_comms e | VAmt _ None => [] | VAmt _ (Some c) => [c] end
with e_comms (e : expr) : list N :=
  match e with
  | EUnaryNeg x => e_comms x
  | EBin _ l r => e_comms l ++ e_comms r
  | EVal v => v_comms v
  end.
Definition ov_comms (o : option vexpr) : list N := match o with Some v => v_comms v | None => [] end.
Definition ox_comms (o : option exchange) : list N :=
  match o with Some (XTotal v) => v_comms v | Some (XRate v) => v_comms v | None => [] end.
Definition posting_comms (p : posting) : list N :=
  ov_comms (p_amount p) ++ ox_comms (p_cost p) ++ ox_comms (p_lot p) ++ ov_comms (p_balance p).
Definition txn_comms (t : txn) : list N := flat_map posting_comms (t_posts t).
Definition txn_accounts (t : txn) : list N := map p_account (t_posts t).

(* generic facts about association lists *)
Lemma in_set : forall {V} (m : amap V) k v k' v', In (k', v') (set k v m) -> (k' = k /\ v' = v) \/ In (k', v') m.
Proof.
  induction m as [|[k0 v0] r IH]; intros k v k' v' I; cbn [set] in I.
  - destruct I as [E | []]. inversion E; subst. left. auto.
  - destruct (k0 =? k) eqn:E.
    + destruct I as [E' | I]; [inversion E'; subst; left; auto | right; right; exact I].
    + destruct I as [E' | I]; [right; left; exact E' |]. destruct (IH _ _ _ _ I) as [H | H]; [left; exact H | right; right; exact H].
Qed.

Lemma in_keys_set : forall {V} (m : amap V) k v k', In k' (keys (set k v m)) -> k' = k \/ In k' (keys m).
Proof.
  intros V m k v k' I. unfold keys in I. apply in_map_iff in I. destruct I as [[k1 v1] [E I]]. cbn in E. subst.
  destruct (in_set _ _ _ _ _ I) as [[-> _] | I']; [left; reflexivity | right; apply (in_map fst) in I'; exact I'].
Qed.

Lemma in_keys_remove : forall {V} (m : amap V) k k', In k' (keys (remove k m)) -> In k' (keys m).
Proof.
  induction m as [|[k0 v0] r IH]; intros k k' I; cbn [remove] in I; [exact I|].
  unfold keys in *. cbn [map fst] in *. destruct (k0 =? k).
  - right. exact I.
  - destruct I as [E | I]; [left; exact E | right; eapply IH; exact I].
Qed.

Lemma keys_map_fst : forall {V W} (g : N * V -> W) (m : amap V), keys (map (fun p => (fst p, g p)) m) = keys m.
Proof. intros. unfold keys. rewrite map_map. apply map_ext. intros [k v]. reflexivity. Qed.

Lemma in_keys_filter : forall {V} (f : N * V -> bool) (m : amap V) k, In k (keys (filter f m)) -> In k (keys m).
Proof.
  intros V f m k I. unfold keys in *. apply in_map_iff in I. destruct I as [x [E I]]. apply filter_In in I.
  apply in_map_iff. exists x. tauto.
Qed.

Section Closed.
  Variables P Q : N -> Prop.

  Definition amt_ok (a : amount) : Prop := forall c, In c (keys a) -> Q c.
  Definition pa_ok (p : posting_amount) : Prop := match p with PZero => True | PSingle c _ => Q c end.
  Definition ev_ok (v : evaluated) : Prop := match v with ENum _ => True | ECom a => amt_ok a end.
  Definition conv_ok (o : option (cid * Qc)) : Prop := match o with Some (c, _) => Q c | None => True end.
  Definition xchg_ok (x : xchg) : Prop := match x with XT c _ => Q c | XR c _ => Q c end.
  Definition oxchg_ok (o : option xchg) : Prop := match o with Some x => xchg_ok x | None => True end.
  Definition comms_ok (l : list N) : Prop := forall c, In c l -> Q c.

  Definition oposting_ok (p : oposting) : Prop := P (o_account p) /\ amt_ok (o_amount p) /\ conv_ok (o_converted p).
  Definition bal_ok (b : balance) : Prop := forall k a, In (k, a) b -> P k /\ amt_ok a.
  Definition bstate_ok (s : bstate) : Prop :=
    bal_ok (s_bal s) /\ Forall (fun t => Forall oposting_ok (o_posts t)) (s_txns s).
  Definition posting_ok (p : posting) : Prop := P (p_account p) /\ comms_ok (posting_comms p).
  Definition txn_ok (t : txn) : Prop := Forall posting_ok (t_posts t).

  (* ---- amounts ---- *)
  Lemma amt_ok_nil : amt_ok [].
  Proof. intros c []. Qed.
  Lemma amt_ok_single : forall c v, Q c -> amt_ok (a_single c v).
  Proof. intros c v H c' [<- | []]. exact H. Qed.
  Lemma amt_ok_add1 : forall a c v, amt_ok a -> Q c -> amt_ok (a_add1 a c v).
  Proof. intros a c v A H c' I. apply in_keys_add1 in I. destruct I as [I | ->]; [apply A; exact I | exact H]. Qed.
  Lemma amt_ok_addf : forall g a b, amt_ok a -> amt_ok b -> amt_ok (addf g a b).
  Proof. intros g a b A B c I. apply in_keys_addf in I. destruct I; [apply A | apply B]; assumption. Qed.
  Lemma amt_ok_add : forall a b, amt_ok a -> amt_ok b -> amt_ok (a_add a b).
  Proof. intros. rewrite a_add_addf. apply amt_ok_addf; assumption. Qed.
  Lemma amt_ok_sub : forall a b, amt_ok a -> amt_ok b -> amt_ok (a_sub a b).
  Proof. intros. rewrite a_sub_addf. apply amt_ok_addf; assumption. Qed.
  Lemma amt_ok_mapval : forall (h : Qc -> Qc) a, amt_ok a -> amt_ok (map (fun p => (fst p, h (snd p))) a).
  Proof. intros h a A c I. rewrite (keys_map_val h) in I. apply A. exact I. Qed.
  Lemma amt_ok_neg : forall a, amt_ok a -> amt_ok (a_neg a).
  Proof. intros. apply (amt_ok_mapval Qcopp). assumption. Qed.
  Lemma amt_ok_round : forall f a, amt_ok a -> amt_ok (a_round f a).
  Proof.
    intros f a A c I. unfold a_round in I.
    rewrite (keys_map_fst (fun p => match get (fst p) f with Some dp => round_dp dp (snd p) | None => snd p end)) in I.
    apply A. exact I.
  Qed.
  Lemma amt_ok_remove_zeros : forall a, amt_ok a -> amt_ok (a_remove_zeros a).
  Proof. intros a A c I. apply in_keys_filter in I. apply A. exact I. Qed.
  Lemma amt_ok_pa : forall p, pa_ok p -> amt_ok (pa_to_amount p).
  Proof. intros [|c v] H; [apply amt_ok_nil | apply amt_ok_single; exact H]. Qed.
  Lemma amt_ok_add_pa : forall a p, amt_ok a -> pa_ok p -> amt_ok (a_add_pa a p).
  Proof. intros a [|c v] A H; [exact A | apply amt_ok_add1; assumption]. Qed.

  Lemma to_pa_ok : forall a p, amount_to_pa a = inl p -> amt_ok a -> pa_ok p.
  Proof.
    intros a p H A. destruct a as [|[c v] [|x r]]; cbn in H; inversion H; subst; cbn; [exact I|].
    apply A. left. reflexivity.
  Qed.
  Lemma to_single_ok : forall a c v, amount_to_single a = inl (c, v) -> amt_ok a -> Q c.
  Proof.
    intros a c v H A. destruct a as [|[c0 v0] [|x r]]; cbn in H; inversion H; subst. apply A. left. reflexivity.
  Qed.

  (* ---- evaluation ---- *)
  Lemma ev_binop_ok : forall a b r,
    ev_ok a -> ev_ok b ->
    (ev_add a b = inl r \/ ev_sub a b = inl r \/ ev_mul a b = inl r \/ ev_div a b = inl r) -> ev_ok r.
  Proof.
    intros a b r A B [H | [H | [H | H]]].
    - destruct a, b; cbn in H; inversion H; subst; cbn; [exact I | apply amt_ok_add; assumption].
    - destruct a, b; cbn in H; inversion H; subst; cbn; [exact I | apply amt_ok_sub; assumption].
    - destruct a, b; cbn in H; inversion H; subst; cbn; try exact I;
        apply (amt_ok_mapval (fun x => (x * _)%Qc)); assumption.
    - unfold ev_div in H. destruct (ev_is_zero b); [discriminate|].
      destruct a as [x|a], b as [y|b]; try discriminate.
      + inversion H; subst. exact I.
      + destruct (amount_to_single b) as [[c v]|e] eqn:S; [|discriminate].
        destruct (qc_zero v); [discriminate|]. inversion H; subst. cbn. apply amt_ok_single.
        eapply to_single_ok; eassumption.
      + inversion H; subst. cbn. apply (amt_ok_mapval (fun x => (x / y)%Qc)). exact A.
  Qed.

  Lemma eval_closed :
    (forall v, comms_ok (v_comms v) -> forall r, eval_v v = inl r -> ev_ok r) /\
    (forall e, comms_ok (e_comms e) -> forall r, eval_e e = inl r -> ev_ok r).
  Proof.
    apply vexpr_expr_ind.
    - intros e IH C r H. apply (IH C r H).
    - intros q [c|] C r H; cbn in H; inversion H; subst; cbn; [|exact I].
      apply amt_ok_single. apply C. left. reflexivity.
    - intros x IH C r H. cbn [eval_e] in H. destruct (eval_e x) as [v|] eqn:E; [|discriminate]. inversion H; subst.
      specialize (IH C v eq_refl). destruct v; cbn in *; [exact I | apply amt_ok_neg; exact IH].
    - intros op l IHl rr IHr C r H. cbn [eval_e] in H. cbn [e_comms] in C.
      destruct (eval_e l) as [a|] eqn:El; [|discriminate]. destruct (eval_e rr) as [b|] eqn:Er; [|discriminate].
      assert (A : ev_ok a) by (apply IHl; [intros c I; apply C; apply in_or_app; left; exact I | reflexivity]).
      assert (B : ev_ok b) by (apply IHr; [intros c I; apply C; apply in_or_app; right; exact I | reflexivity]).
      apply (ev_binop_ok a b r A B). destruct op; tauto.
    - intros v IH C r H. apply (IH C r H).
  Qed.

  Lemma ev_to_amount_ok : forall v a, ev_to_amount v = inl a -> ev_ok v -> amt_ok a.
  Proof.
    intros [q|a0] a H E; cbn in H.
    - destruct (qc_zero q); inversion H; subst. apply amt_ok_nil.
    - inversion H; subst. exact E.
  Qed.

  Lemma eval_pa_ok : forall e p, eval_pa e = Ok p -> comms_ok (v_comms e) -> pa_ok p.
  Proof.
    intros e p H C. unfold eval_pa in H. destruct (eval_v e) as [v|] eqn:E; cbn in H; [|discriminate].
    unfold ev_to_pa in H. destruct (ev_to_amount v) as [a|] eqn:A; cbn in H; [|discriminate].
    destruct (amount_to_pa a) as [p'|] eqn:T; cbn in H; inversion H; subst.
    eapply to_pa_ok; [exact T|]. eapply ev_to_amount_ok; [exact A|]. apply (proj1 eval_closed e C v E).
  Qed.

  Lemma eval_single_ok : forall e s,
    lift_eval (match eval_v e with inl v => ev_to_single v | inr er => inr er end) = Ok s ->
    comms_ok (v_comms e) -> Q (fst s).
  Proof.
    intros e [c x] H C. destruct (eval_v e) as [v|] eqn:E; cbn in H; [|discriminate].
    unfold ev_to_single in H. destruct (ev_to_amount v) as [a|] eqn:A; cbn in H; [|discriminate].
    destruct (amount_to_single a) as [[c' x']|] eqn:T; cbn in H; inversion H; subst. cbn.
    eapply to_single_ok; [exact T|]. eapply ev_to_amount_ok; [exact A|]. apply (proj1 eval_closed e C v E).
  Qed.

  Lemma xchg_from_syntax_ok : forall amt x r, xchg_from_syntax amt x = Ok r ->
    comms_ok (ox_comms (Some x)) -> xchg_ok r.
  Proof.
    intros amt x r H C. unfold xchg_from_syntax in H.
    destruct x as [e|e]; cbn [ox_comms] in C.
    - destruct (lift_eval (match eval_v e with inl v => ev_to_single v | inr er => inr er end)) as [s| |] eqn:S;
        cbn [bind] in H; try discriminate.
      pose proof (eval_single_ok e s S C) as Qs. destruct s as [c v]. cbn [fst snd] in *.
      destruct (qc_zero v); [discriminate|]. destruct amt as [|ac av]; [discriminate|].
      destruct (ac =? c); inversion H; subst. exact Qs.
    - destruct (lift_eval (match eval_v e with inl v => ev_to_single v | inr er => inr er end)) as [s| |] eqn:S;
        cbn [bind] in H; try discriminate.
      pose proof (eval_single_ok e s S C) as Qs. destruct s as [c v]. cbn [fst snd] in *.
      destruct (qc_zero v); [discriminate|]. destruct amt as [|ac av]; [discriminate|].
      destruct (ac =? c); inversion H; subst. exact Qs.
  Qed.

  Lemma xchg_apply_ok : forall x v, xchg_ok x -> Q (fst (xchg_apply x v)).
  Proof. intros [c t|c r] v H; exact H. Qed.

  (* ---- balances ---- *)
  Lemma bal_get_ok : forall b a, bal_ok b -> amt_ok (bal_get b a).
  Proof.
    intros b a B. unfold bal_get. destruct (get a b) as [x|] eqn:G; [|apply amt_ok_nil].
    apply get_in in G. apply (B _ _ G).
  Qed.
  Lemma bal_ok_set : forall b k v, bal_ok b -> P k -> amt_ok v -> bal_ok (set k v b).
  Proof.
    intros b k v B Pk A k' a' I. destruct (in_set _ _ _ _ _ I) as [[-> ->] | I']; [split; assumption | apply (B _ _ I')].
  Qed.

  Lemma bal_add_pa_ok : forall b a p b' cur, bal_add_pa b a p = (b', cur) -> bal_ok b -> P a -> pa_ok p ->
    bal_ok b' /\ amt_ok cur.
  Proof.
    intros b a p b' cur H B Pa Pp. unfold bal_add_pa in H. inversion H; subst.
    assert (A : amt_ok (a_remove_zeros (a_add_pa (bal_get b a) p))).
    { apply amt_ok_remove_zeros. apply amt_ok_add_pa; [apply bal_get_ok; exact B | exact Pp]. }
    split; [apply bal_ok_set; assumption | exact A].
  Qed.

  Lemma bal_set_partial_ok : forall b a p b' prev, bal_set_partial b a p = Ok (b', prev) ->
    bal_ok b -> P a -> pa_ok p -> bal_ok b' /\ pa_ok prev.
  Proof.
    intros b a p b' prev H B Pa Pp. unfold bal_set_partial in H. destruct p as [|c v].
    - destruct (amount_to_pa (bal_get b a)) as [pp|] eqn:T; inversion H; subst.
      split; [apply bal_ok_set; [exact B | exact Pa | apply amt_ok_nil] |].
      eapply to_pa_ok; [exact T | apply bal_get_ok; exact B].
    - unfold a_set_partial in H. inversion H; subst. split; [|exact Pp].
      apply bal_ok_set; [exact B | exact Pa |].
      pose proof (bal_get_ok b a B) as G. destruct (qc_zero v).
      + intros c' I. apply in_keys_remove in I. apply G. exact I.
      + intros c' I. apply in_keys_set in I. destruct I as [-> | I]; [exact Pp | apply G; exact I].
  Qed.

  Lemma pa_check_sub_ok : forall l r p, pa_check_sub l r = inl p -> pa_ok l -> pa_ok r -> pa_ok p.
  Proof.
    intros l r p H L R. unfold pa_check_sub, pa_check_add in H.
    destruct l as [|c1 v1], r as [|c2 v2]; cbn in H; inversion H; subst; cbn; try assumption.
    destruct (c1 =? c2); inversion H; subst. exact L.
  Qed.

  Lemma bal_add_amount_ok : forall b a x, bal_ok b -> P a -> amt_ok x -> bal_ok (bal_add_amount b a x).
  Proof.
    intros b a x B Pa A. unfold bal_add_amount. apply bal_ok_set; [exact B | exact Pa |].
    apply amt_ok_remove_zeros. apply amt_ok_add; [apply bal_get_ok; exact B | exact A].
  Qed.

  (* ---- one posting ---- *)
  Definition ep_ok (o : option evaluated_posting) : Prop :=
    match o with
    | Some e => pa_ok (ep_amount e) /\ conv_ok (ep_converted e) /\ pa_ok (ep_delta e)
    | None => True
    end.

  Lemma opt_xchg_ok : forall amt o r,
    (match o with Some x => bind (xchg_from_syntax amt x) (fun r => Ok (Some r)) | None => Ok None end) = Ok r ->
    comms_ok (ox_comms o) -> oxchg_ok r.
  Proof.
    intros amt [x|] r H C; [|inversion H; subst; exact I].
    destruct (xchg_from_syntax amt x) as [y| |] eqn:X; cbn [bind] in H; inversion H; subst.
    eapply xchg_from_syntax_ok; eassumption.
  Qed.

  Lemma option_or_ok : forall a b, oxchg_ok a -> oxchg_ok b -> oxchg_ok (option_or a b).
  Proof. intros [x|] b A B; [exact A | exact B]. Qed.

  Lemma balance_amount_ok : forall c p, balance_amount c = Ok p ->
    pa_ok (c_amount c) -> oxchg_ok (c_cost c) -> oxchg_ok (c_lot c) -> pa_ok p.
  Proof.
    intros c p H A Co Lo. unfold balance_amount in H.
    pose proof (option_or_ok _ _ Lo Co) as X. destruct (option_or (c_lot c) (c_cost c)) as [x|].
    - destruct (pa_to_single (c_amount c)) as [s| |]; cbn [bind] in H; inversion H; subst. cbn. apply xchg_apply_ok. exact X.
    - inversion H; subst. exact A.
  Qed.

  Lemma converted_amount_ok : forall c o, converted_amount c = Ok o ->
    oxchg_ok (c_cost c) -> oxchg_ok (c_lot c) -> conv_ok o.
  Proof.
    intros c o H Co Lo. unfold converted_amount in H.
    pose proof (option_or_ok _ _ Co Lo) as X. destruct (option_or (c_cost c) (c_lot c)) as [x|].
    - destruct (pa_to_single (c_amount c)) as [s| |]; cbn [bind] in H; inversion H; subst. cbn.
      pose proof (xchg_apply_ok x (snd s) X) as Qx. destruct (xchg_apply x (snd s)). exact Qx.
    - inversion H; subst. exact I.
  Qed.

  Lemma posting_tail_ok : forall d c (b1 : balance) (r : balance * option evaluated_posting * option price_event),
    bind (balance_amount c) (fun delta =>
      bind (converted_amount c) (fun conv =>
        bind (posting_price_event d c) (fun ev =>
          Ok (b1, Some {| ep_amount := c_amount c; ep_converted := conv; ep_delta := delta |}, ev)))) = Ok r ->
    pa_ok (c_amount c) -> oxchg_ok (c_cost c) -> oxchg_ok (c_lot c) ->
    fst (fst r) = b1 /\ ep_ok (snd (fst r)).
  Proof.
    intros d c b1 r H A Co Lo.
    destruct (balance_amount c) as [delta| |] eqn:Eb; cbn [bind] in H; try discriminate.
    destruct (converted_amount c) as [conv| |] eqn:Ec; cbn [bind] in H; try discriminate.
    destruct (posting_price_event d c) as [ev| |]; cbn [bind] in H; try discriminate.
    inversion H; subst. cbn [fst snd]. split; [reflexivity|]. cbn [ep_ok ep_amount ep_converted ep_delta].
    split; [exact A|]. split; [eapply converted_amount_ok; eassumption | eapply balance_amount_ok; eassumption].
  Qed.

  Lemma process_posting_ok : forall b d i p b' ep ev,
    process_posting b d i p = Ok (b', ep, ev) -> bal_ok b -> posting_ok p -> bal_ok b' /\ ep_ok ep.
  Proof.
    intros b d i p b' ep ev H B [Pa C]. unfold posting_comms in C. unfold process_posting in H.
    assert (Cam : comms_ok (ov_comms (p_amount p))) by (intros c I; apply C; apply in_or_app; left; exact I).
    assert (Cco : comms_ok (ox_comms (p_cost p))) by (intros c I; apply C; apply in_or_app; right; apply in_or_app; left; exact I).
    assert (Clo : comms_ok (ox_comms (p_lot p))) by (intros c I; apply C; apply in_or_app; right; apply in_or_app; right; apply in_or_app; left; exact I).
    assert (Cba : comms_ok (ov_comms (p_balance p))) by (intros c I; apply C; apply in_or_app; right; apply in_or_app; right; apply in_or_app; right; exact I).
    destruct (p_amount p) as [sa|].
    - (* an amount, with or without assertion *)
      cbn [ov_comms] in Cam.
      destruct (eval_pa sa) as [amt| |] eqn:Ea; cbn [bind] in H; try discriminate.
      pose proof (eval_pa_ok _ _ Ea Cam) as Pamt.
      destruct (match p_cost p with Some x => bind (xchg_from_syntax amt x) (fun r => Ok (Some r)) | None => Ok None end) as [cost| |] eqn:Ec;
        cbn [bind] in H; try discriminate.
      destruct (match p_lot p with Some x => bind (xchg_from_syntax amt x) (fun r => Ok (Some r)) | None => Ok None end) as [lot| |] eqn:El;
        cbn [bind] in H; try discriminate.
      pose proof (opt_xchg_ok _ _ _ Ec Cco) as Pc. pose proof (opt_xchg_ok _ _ _ El Clo) as Pl.
      destruct (bal_add_pa b (p_account p) amt) as [b1 cur] eqn:Eb.
      destruct (bal_add_pa_ok _ _ _ _ _ Eb B Pa Pamt) as [B1 _].
      match type of H with bind ?chk _ = _ => destruct chk as [u| |]; cbn [bind] in H; try discriminate end.
      destruct (posting_tail_ok d {| c_amount := amt; c_cost := cost; c_lot := lot |} b1 _ H Pamt Pc Pl) as [F E].
      cbn [fst snd] in F, E. subst. split; assumption.
    - destruct (p_balance p) as [bc|].
      + (* assignment *)
        cbn [ov_comms] in Cba.
        destruct (eval_pa bc) as [cur| |] eqn:Ea; cbn [bind] in H; try discriminate.
        pose proof (eval_pa_ok _ _ Ea Cba) as Pcur.
        destruct (bal_set_partial b (p_account p) cur) as [[b1 prev]| |] eqn:Es; cbn [bind] in H; try discriminate.
        destruct (bal_set_partial_ok _ _ _ _ _ Es B Pa Pcur) as [B1 Pprev].
        destruct (pa_check_sub cur prev) as [amt|] eqn:Ek; cbn [lift_eval bind] in H; try discriminate.
        inversion H; subst. split; [exact B1|]. cbn.
        pose proof (pa_check_sub_ok _ _ _ Ek Pcur Pprev) as Pamt. auto.
      + inversion H; subst. split; [exact B | exact I].
  Qed.

  (* ---- the posting loop ---- *)
  Definition linv (k : nat) (st : loop_st) : Prop :=
    bal_ok (l_bal st) /\ Forall oposting_ok (l_posts st) /\ amt_ok (l_residual st) /\
    length (l_posts st) = k /\ (forall u, l_unfilled st = Some u -> (u < k)%nat).

  Lemma loop_step_ok : forall d k st p st',
    loop_step d (Ok st) (k, p) = Ok st' -> linv k st -> posting_ok p -> linv (S k) st'.
  Proof.
    intros d k st p st' H [B [F [R [L U]]]] Pp. unfold loop_step in H. cbn [bind] in H.
    destruct (process_posting (l_bal st) d k p) as [[[b' ep] ev]| |] eqn:E; cbn [bind] in H; try discriminate.
    destruct (process_posting_ok _ _ _ _ _ _ _ E B Pp) as [B' EP].
    destruct ep as [e|].
    - inversion H; subst. cbn [ep_ok] in EP. destruct EP as [A [Cv Dl]].
      unfold linv. cbn [l_bal l_posts l_unfilled l_residual length].
      split; [exact B'|]. split.
      + constructor; [|exact F]. split; [apply Pp|]. split; [apply amt_ok_pa; exact A | exact Cv].
      + split; [apply amt_ok_add_pa; assumption|]. split; [lia|]. intros u Hu. specialize (U u Hu). lia.
    - destruct (l_unfilled st) as [first|] eqn:Uf; [discriminate|]. inversion H; subst.
      unfold linv. cbn [l_bal l_posts l_unfilled l_residual length].
      split; [exact B'|]. split.
      + constructor; [|exact F]. split; [apply Pp|]. split; [apply amt_ok_nil | exact I].
      + split; [exact R|]. split; [lia|]. intros u Hu. inversion Hu; subst. lia.
  Qed.

  Lemma fold_loop_err : forall d l e, fold_left (loop_step d) l (Err e) = Err e.
  Proof. intros d l e. induction l as [|x r IH]; [reflexivity | exact IH]. Qed.
  Lemma fold_loop_panic : forall d l, fold_left (loop_step d) l Panic = Panic.
  Proof. intros d l. induction l as [|x r IH]; [reflexivity | exact IH]. Qed.

  Lemma fold_loop_ok : forall d ps k st st',
    fold_left (loop_step d) (enumerate k ps) (Ok st) = Ok st' ->
    linv k st -> Forall posting_ok ps -> linv (k + length ps) st'.
  Proof.
    intros d. induction ps as [|p r IH]; intros k st st' H Inv F; cbn [enumerate fold_left length] in *.
    - inversion H; subst. rewrite Nat.add_0_r. exact Inv.
    - inversion F as [|? ? Pp Fr]; subst.
      destruct (loop_step d (Ok st) (k, p)) as [st1|e|] eqn:E.
      + replace (k + S (length r))%nat with (S k + length r)%nat by lia.
        eapply IH; [exact H | eapply loop_step_ok; eassumption | exact Fr].
      + rewrite fold_loop_err in H. discriminate.
      + rewrite fold_loop_panic in H. discriminate.
  Qed.

  (* ---- check_balance and the whole transaction ---- *)
  Lemma fill_converted_ok : forall c1 v1 c2 v2 p, Q c1 -> Q c2 -> oposting_ok p -> oposting_ok (fill_converted c1 v1 c2 v2 p).
  Proof.
    intros c1 v1 c2 v2 p Q1 Q2 [Pa [A Cv]]. unfold fill_converted.
    destruct (amount_to_single (o_amount p)) as [[c v]|]; [|split; [exact Pa | split; assumption]].
    destruct (c1 =? c); [split; [exact Pa | split; [exact A | exact Q2]]|].
    destruct (c2 =? c); [split; [exact Pa | split; [exact A | exact Q1]] | split; [exact Pa | split; assumption]].
  Qed.

  Lemma check_balance_ok : forall f d posts residual posts' ev,
    check_balance f d posts residual = Ok (posts', ev) -> Forall oposting_ok posts -> amt_ok residual ->
    Forall oposting_ok posts'.
  Proof.
    intros f d posts residual posts' ev H F R. unfold check_balance in H.
    destruct (a_is_zero (a_round f residual)); [inversion H; subst; exact F|].
    pose proof (amt_ok_remove_zeros _ (amt_ok_round f _ R)) as RZ.
    destruct (a_remove_zeros (a_round f residual)) as [|[c1 v1] [|[c2 v2] [|x t]]]; try discriminate.
    destruct (negb (Bool.eqb (sign_positive v1) (sign_positive v2))); [|discriminate].
    destruct (qc_zero v1 || qc_zero v2); [discriminate|]. inversion H; subst.
    assert (Q1 : Q c1) by (apply RZ; left; reflexivity).
    assert (Q2 : Q c2) by (apply RZ; right; left; reflexivity).
    apply Forall_forall. intros p I. apply in_map_iff in I. destruct I as [p0 [<- I]].
    apply fill_converted_ok; try assumption. eapply Forall_forall in F; eassumption.
  Qed.

  Lemma set_nth_ok : forall (f : oposting -> oposting) l n,
    (forall p, oposting_ok p -> oposting_ok (f p)) -> Forall oposting_ok l -> Forall oposting_ok (set_nth n f l).
  Proof.
    intros f. induction l as [|x r IH]; intros n Hf F; destruct n; cbn [set_nth]; try exact F;
      inversion F; subst; constructor; auto.
  Qed.

  Theorem add_transaction_closed : forall s t s',
    add_transaction s t = Ok s' -> bstate_ok s -> txn_ok t -> bstate_ok s'.
  Proof.
    intros s t s' H [B T] Tx. unfold add_transaction in H.
    match type of H with bind ?f _ = _ => destruct f as [st| |] eqn:L; cbn [bind] in H; try discriminate end.
    assert (Inv : linv (0 + length (t_posts t)) st).
    { eapply fold_loop_ok; [exact L | | exact Tx].
      unfold linv. cbn. split; [exact B|]. split; [constructor|]. split; [apply amt_ok_nil|]. split; [reflexivity|].
      intros u Hu. discriminate. }
    destruct Inv as [B' [F [R [Len U]]]].
    assert (Fr : Forall oposting_ok (rev (l_posts st))).
    { apply Forall_forall. intros p I. apply in_rev in I. eapply Forall_forall in F; eassumption. }
    destruct (l_unfilled st) as [u|] eqn:Uf.
    - inversion H; subst. specialize (U u eq_refl).
      assert (Lr : (u < length (rev (l_posts st)))%nat) by (rewrite rev_length; lia).
      destruct (nth_error (rev (l_posts st)) u) as [p|] eqn:N; [|apply nth_error_None in N; lia].
      assert (Pp : oposting_ok p) by (eapply Forall_forall; [exact Fr | eapply nth_error_In; exact N]).
      pose proof (amt_ok_neg _ R) as D.
      split; cbn [s_bal s_txns].
      + apply bal_add_amount_ok; [exact B' | apply Pp | exact D].
      + apply Forall_app. split; [exact T|]. constructor; [|constructor]. cbn [o_posts].
        apply set_nth_ok; [|exact Fr]. intros q [Pa [A Cv]]. split; [exact Pa | split; [exact D | exact Cv]].
    - destruct (check_balance (s_fmt s) (t_date t) (rev (l_posts st)) (l_residual st)) as [[posts' ev]| |] eqn:C;
        cbn [bind] in H; try discriminate.
      inversion H; subst. split; cbn [s_bal s_txns]; [exact B'|].
      apply Forall_app. split; [exact T|]. constructor; [|constructor]. cbn [o_posts].
      eapply check_balance_ok; eassumption.
  Qed.

  Theorem process_entry_closed : forall s e s',
    process_entry s e = Ok s' -> bstate_ok s -> (forall t, e = ETxn t -> txn_ok t) -> bstate_ok s'.
  Proof.
    intros s e s' H B Tx. destruct e as [t|c dp|]; cbn [process_entry] in H.
    - eapply add_transaction_closed; [exact H | exact B | apply Tx; reflexivity].
    - inversion H; subst. exact B.
    - inversion H; subst. exact B.
  Qed.
End Closed.
