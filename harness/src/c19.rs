//! C19: layout of formatted postings.  Implementation under test: the Display impls of
//! okane_core::syntax::display (through DisplayContext::default().as_display) on syntax trees
//! built directly, and FormatOptions::format on text (the trees are then the ones the real
//! parser returns for that text).
use crate::coq::{self, Shards, Stats};
use crate::fmtworker::{Reply, Worker};
use crate::prng::Rng;
use crate::syntax_term::{printable_ascii, Printer};
use crate::Opts;
use chrono::NaiveDate;
use okane_core::syntax::display::DisplayContext;
use okane_core::syntax::expr::{Amount, BinaryOp, BinaryOpExpr, Expr, UnaryOp, UnaryOpExpr, ValueExpr};
use okane_core::syntax::plain::{LedgerEntry, Lot, Posting, PostingAmount, Transaction};
use okane_core::syntax::pretty_decimal::PrettyDecimal;
use okane_core::syntax::{
    AccountDeclaration, AccountDetail, ApplyTag, ClearState, CommodityDeclaration, CommodityDetail,
    Exchange, IncludeFile, Metadata, MetadataValue, TopLevelComment,
};
use rust_decimal::Decimal;
use serde_json::{json, Value};
use std::borrow::Cow;
use std::panic::AssertUnwindSafe;
use std::str::FromStr;
use unicode_width::UnicodeWidthStr;

// ------------------------------------------------------------------------------------------
// steering helpers (never used for a verdict): the alignment width of an expression and the
// distance of a posting from the column boundary
// ------------------------------------------------------------------------------------------

fn shown(v: &ValueExpr) -> String {
    std::panic::catch_unwind(AssertUnwindSafe(|| format!("{}", DisplayContext::default().as_display(v))))
        .unwrap_or_default()
}

/// (length of the printed text, Some(offset of the end of the first commodity-bearing number))
fn align_v(v: &ValueExpr) -> (usize, Option<usize>) {
    match v {
        ValueExpr::Amount(a) => {
            let n = a.value.to_string().len();
            if a.commodity.is_empty() {
                (n, None)
            } else {
                (n + 1 + a.commodity.len(), Some(n))
            }
        }
        ValueExpr::Paren(e) => {
            let (n, a) = align_e(e);
            (n + 2, a.map(|x| x + 1))
        }
    }
}

fn align_e(e: &Expr) -> (usize, Option<usize>) {
    match e {
        Expr::Unary(u) => {
            let (n, a) = align_e(&u.expr);
            (n + 1, a.map(|x| x + 1))
        }
        Expr::Binary(b) => {
            let (n1, a1) = align_e(&b.lhs);
            let (n2, a2) = align_e(&b.rhs);
            (n1 + 3 + n2, a1.or(a2.map(|x| n1 + 3 + x)))
        }
        Expr::Value(v) => align_v(v),
    }
}

fn align_of(v: &ValueExpr) -> usize {
    let (n, a) = align_v(v);
    a.unwrap_or(n)
}

fn mark_len(c: ClearState) -> usize {
    match c {
        ClearState::Uncleared => 0,
        _ => 2,
    }
}

/// signed distance of the posting from the branch of get_column it is decided by
fn boundary_distance(p: &Posting) -> Option<i64> {
    let aw = (UnicodeWidthStr::width_cjk(p.account.as_ref()) + mark_len(p.clear_state)) as i64;
    if let Some(a) = &p.amount {
        Some(aw + align_of(&a.amount) as i64 + 2 - 48)
    } else if let Some(b) = &p.balance {
        let s = shown(b);
        let trailing = UnicodeWidthStr::width_cjk(s.as_str()) as i64 - align_of(b) as i64;
        Some(aw + 3 - (50 + trailing))
    } else {
        None
    }
}

fn posting_wide(p: &Posting) -> bool {
    !printable_ascii(&p.account) || p.balance.as_ref().map(|b| !printable_ascii(&shown(b))).unwrap_or(false)
}

/// the rule of DESIGN.md section 5 C19: account width + alignment within 6 of the boundary,
/// or wide characters present
pub fn entry_nontrivial(e: &LedgerEntry) -> bool {
    match e {
        LedgerEntry::Txn(t) => t
            .posts
            .iter()
            .any(|p| posting_wide(p) || boundary_distance(p).map(|d| d.abs() <= 6).unwrap_or(false)),
        _ => false,
    }
}

// ------------------------------------------------------------------------------------------
// generator
// ------------------------------------------------------------------------------------------

const WIDE: &[&str] = &["資", "産", "銀", "行", "食", "費", "現", "金", "口", "座", "カ", "ー", "ド", "あ", "い", "ｱ", "Ａ", "한", "글"];
// East Asian Ambiguous: one column for width(), two for width_cjk()
const AMBIGUOUS: &[&str] = &["α", "β", "Ω", "é", "ü", "°", "±", "§", "Д", "я", "×", "→"];
const ZERO_WIDTH: &[&str] = &["\u{0301}", "\u{200b}", "\u{fe0f}"];
const EMOJI: &[&str] = &["😀", "🏦", "💰", "👨\u{200d}👩\u{200d}👧", "🇨🇭", "✈\u{fe0f}"];
const NARROW: &[&str] = &["ñ", "Ł", "ǆ", "ｶ"]; // non-ASCII but narrow in both measures (half-width kana included)
const COMMODITIES: &[&str] = &["USD", "CHF", "JPY", "EUR", "$", "€", "円", "JPYRIN", "SPINX", "BTC", "米ドル", "A", "£"];
const ASCII_WORD: &[u8] = b"abcdefghijklmnopqrstuvwxyzABCDEFGHIJKLMNOPQRSTUVWXYZ0123456789:_-.&'";

fn ascii_account(r: &mut Rng, w: usize) -> String {
    let mut s = String::new();
    s.push((b'A' + r.below(26) as u8) as char);
    while s.len() < w {
        let left = w - s.len();
        let last_space = s.ends_with(' ');
        if !last_space && left >= 2 && r.chance(1, 12) {
            s.push(' ');
        } else if !last_space && left >= 2 && r.chance(1, 7) {
            s.push(':');
        } else {
            let mut c = *r.pick(ASCII_WORD) as char;
            if last_space && (c == ':' || c == '-') {
                c = 'x';
            }
            s.push(c);
        }
    }
    s
}

/// an account of display width (width_cjk) about `w`; style 0 ASCII, 1 wide, 2 mixed
fn account(r: &mut Rng, w: usize, style: u64) -> String {
    let w = w.max(1);
    match style {
        0 => ascii_account(r, w),
        1 => {
            let mut s = String::new();
            while UnicodeWidthStr::width_cjk(s.as_str()) + 2 <= w {
                if !s.is_empty() && r.chance(1, 6) && UnicodeWidthStr::width_cjk(s.as_str()) + 3 <= w {
                    s.push(':');
                }
                s.push_str(*r.pick(WIDE));
            }
            while UnicodeWidthStr::width_cjk(s.as_str()) < w {
                s.push((b'a' + r.below(26) as u8) as char);
            }
            s
        }
        _ => {
            let mut s = String::new();
            s.push((b'A' + r.below(26) as u8) as char);
            while UnicodeWidthStr::width_cjk(s.as_str()) < w {
                match r.below(12) {
                    0 | 1 | 2 => s.push_str(*r.pick(WIDE)),
                    3 | 4 => s.push_str(*r.pick(AMBIGUOUS)),
                    5 => s.push_str(*r.pick(ZERO_WIDTH)),
                    6 => s.push_str(*r.pick(EMOJI)),
                    7 => s.push_str(*r.pick(NARROW)),
                    8 => s.push(':'),
                    _ => s.push(*r.pick(ASCII_WORD) as char),
                }
            }
            s
        }
    }
}

fn digits(r: &mut Rng, n: usize, first_nonzero: bool) -> String {
    let mut s = String::new();
    for i in 0..n {
        let d = if i == 0 && first_nonzero && n > 1 { 1 + r.below(9) } else { r.below(10) };
        s.push((b'0' + d as u8) as char);
    }
    s
}

/// a literal with `int_digits` integer digits: sign, grouping, fraction all drawn
fn literal_text(r: &mut Rng, int_digits: usize) -> String {
    let mut s = String::new();
    if r.chance(1, 3) {
        s.push('-');
    }
    let ip = digits(r, int_digits, true);
    if int_digits >= 4 && r.chance(1, 2) {
        let first = ((ip.len() - 1) % 3) + 1;
        s.push_str(&ip[..first]);
        let rest = ip[first..].as_bytes();
        for ch in rest.chunks(3) {
            s.push(',');
            s.push_str(std::str::from_utf8(ch).unwrap());
        }
    } else {
        s.push_str(&ip);
    }
    let frac = match r.below(6) {
        0 | 1 => 0,
        2 => 2,
        3 => 1 + r.below(4) as usize,
        4 => r.below(9) as usize,
        _ => 2,
    };
    let frac = frac.min(28usize.saturating_sub(int_digits));
    if frac > 0 {
        s.push('.');
        s.push_str(&digits(r, frac, false));
    }
    s
}

fn pdec(r: &mut Rng, int_digits: usize) -> PrettyDecimal {
    if r.chance(1, 40) {
        // values the scanner never returns: negative zero, a style on a small number
        let mut d = Decimal::new(r.below(1000) as i64, r.below(4) as u32);
        if r.chance(1, 2) {
            d = Decimal::new(0, r.below(3) as u32);
            d.set_sign_negative(true);
        }
        return match r.below(3) {
            0 => PrettyDecimal::unformatted(d),
            1 => PrettyDecimal::plain(d),
            _ => PrettyDecimal::comma3dot(d),
        };
    }
    let t = literal_text(r, int_digits);
    PrettyDecimal::from_str(&t).unwrap_or_else(|_| PrettyDecimal::unformatted(Decimal::new(1, 0)))
}

fn int_digits(r: &mut Rng) -> usize {
    match r.below(4) {
        0 => 1 + r.below(20) as usize,
        1 => 1 + r.below(4) as usize,
        _ => 1 + r.below(9) as usize,
    }
}

fn commodity(r: &mut Rng, allow_empty: bool) -> String {
    if allow_empty && r.chance(1, 4) {
        String::new()
    } else {
        r.pick(COMMODITIES).to_string()
    }
}

fn amount(r: &mut Rng, allow_empty: bool) -> Amount<'static> {
    let n = int_digits(r);
    Amount { value: pdec(r, n), commodity: Cow::Owned(commodity(r, allow_empty)) }
}

fn expr(r: &mut Rng, depth: u32) -> Expr<'static> {
    if depth == 0 {
        return Expr::Value(Box::new(ValueExpr::Amount(amount(r, true))));
    }
    match r.below(6) {
        0 => Expr::Unary(UnaryOpExpr { op: UnaryOp::Negate, expr: Box::new(expr(r, depth - 1)) }),
        1 | 2 | 3 => Expr::Binary(BinaryOpExpr {
            op: *r.pick(&[BinaryOp::Add, BinaryOp::Sub, BinaryOp::Mul, BinaryOp::Div]),
            lhs: Box::new(expr(r, depth - 1)),
            rhs: Box::new(expr(r, depth - 1)),
        }),
        _ => Expr::Value(Box::new(vexpr(r, depth - 1, true))),
    }
}

fn vexpr(r: &mut Rng, depth: u32, allow_empty: bool) -> ValueExpr<'static> {
    if depth == 0 || r.chance(2, 3) {
        ValueExpr::Amount(amount(r, allow_empty))
    } else {
        ValueExpr::Paren(expr(r, depth))
    }
}

fn date(r: &mut Rng) -> NaiveDate {
    let y = match r.below(40) {
        0 => *r.pick(&[0, 1, 999, 9999, 10000, 12345, -1, -44, 262000, -262000]),
        1 => r.range(1, 999) as i32,
        _ => r.range(1900, 2199) as i32,
    };
    let m = r.range(1, 12) as u32;
    let d = r.range(1, 28) as u32;
    NaiveDate::from_ymd_opt(y, m, d).unwrap_or_else(|| NaiveDate::from_ymd_opt(2024, 1, 1).unwrap())
}

const WORDS: &[&str] = &["Migros", "Coop", "給与", "rent", "Opening Balance", "スーパー", "café", "x", "My Card", "ATM #12", "😀 party"];

fn text(r: &mut Rng) -> String {
    let n = 1 + r.below(3);
    let mut v = Vec::new();
    for _ in 0..n {
        v.push(*r.pick(WORDS));
    }
    v.join(" ")
}

fn tag_word(r: &mut Rng) -> String {
    r.pick(&["financial", "経済", "a", "tag-1", "x_y", "日本"]).to_string()
}

fn metadata(r: &mut Rng) -> Metadata<'static> {
    match r.below(4) {
        0 => {
            let n = 1 + r.below(3);
            Metadata::WordTags((0..n).map(|_| Cow::Owned(tag_word(r))).collect())
        }
        1 => Metadata::KeyValueTag {
            key: Cow::Owned(r.pick(&["Payee", "日付", "k", "note-1"]).to_string()),
            value: if r.chance(1, 2) {
                MetadataValue::Text(Cow::Owned(text(r)))
            } else {
                MetadataValue::Expr(Cow::Owned(r.pick(&["10 USD", "[2022/3/4]", "(1 + 2)", "5"]).to_string()))
            },
        },
        _ => Metadata::Comment(Cow::Owned(text(r))),
    }
}

fn exchange(r: &mut Rng) -> Exchange<'static> {
    let v = vexpr(r, 2, false);
    if r.chance(1, 2) {
        Exchange::Rate(v)
    } else {
        Exchange::Total(v)
    }
}

fn lot(r: &mut Rng) -> Lot<'static> {
    if r.chance(1, 2) {
        return Lot::default();
    }
    Lot {
        price: if r.chance(2, 3) { Some(exchange(r)) } else { None },
        date: if r.chance(1, 2) { Some(date(r)) } else { None },
        note: if r.chance(1, 2) { Some(Cow::Owned(text(r))) } else { None },
    }
}

fn clear_state(r: &mut Rng) -> ClearState {
    match r.below(4) {
        0 => ClearState::Cleared,
        1 => ClearState::Pending,
        _ => ClearState::Uncleared,
    }
}

/// a posting; `near`: aim the account width at the column boundary of its amount or balance
fn posting(r: &mut Rng, near: bool) -> Posting<'static> {
    let cs = clear_state(r);
    let shape = r.below(10);
    let amount = if shape < 7 {
        let depth = if r.chance(1, 4) { 2 } else { 0 };
        let bare = r.chance(1, 8);
        Some(PostingAmount {
            amount: vexpr(r, depth, bare),
            cost: if r.chance(1, 3) { Some(exchange(r)) } else { None },
            lot: if r.chance(1, 3) { lot(r) } else { Lot::default() },
        })
    } else {
        None
    };
    let balance = if shape == 7 || shape == 8 || (shape < 7 && r.chance(1, 4)) {
        let depth = if r.chance(1, 5) { 2 } else { 0 };
        Some(vexpr(r, depth, true))
    } else {
        None
    };
    let style = r.below(3);
    let width = if near {
        // solve boundary_distance = delta for the account width
        let delta = r.range(-7, 7);
        let target = if let Some(a) = &amount {
            48 - 2 - align_of(&a.amount) as i64 + delta
        } else if let Some(b) = &balance {
            let s = shown(b);
            let trailing = UnicodeWidthStr::width_cjk(s.as_str()) as i64 - align_of(b) as i64;
            50 + trailing - 3 + delta
        } else {
            r.range(1, 60)
        };
        (target - mark_len(cs) as i64).clamp(1, 70) as usize
    } else {
        r.range(1, 60) as usize
    };
    let mut p = Posting::new_untracked(account(r, width, style));
    p.clear_state = cs;
    p.amount = amount;
    p.balance = balance;
    let nm = if r.chance(1, 4) { 1 + r.below(2) } else { 0 };
    p.metadata = (0..nm).map(|_| metadata(r)).collect();
    p
}

fn transaction(r: &mut Rng) -> Transaction<'static> {
    let mut t = Transaction::new(date(r), if r.chance(1, 10) { String::new() } else { text(r) });
    if r.chance(1, 5) {
        t.effective_date = Some(date(r));
    }
    t.clear_state = clear_state(r);
    if r.chance(1, 4) {
        t.code = Some(Cow::Owned(r.pick(&["#txn-1", "123", "コード", ""]).to_string()));
    }
    let nm = if r.chance(1, 4) { 1 + r.below(2) } else { 0 };
    t.metadata = (0..nm).map(|_| metadata(r)).collect();
    let np = r.below(5);
    t.posts = (0..np)
        .map(|_| {
            let near = r.chance(3, 5);
            posting(r, near)
        })
        .collect();
    t
}

/// text as `multiline_text` of the parser builds it (every line followed by "\n"), and now and
/// then what it never builds: no final newline, CRLF, an empty line, a lone CR
fn multiline(r: &mut Rng) -> String {
    let n = 1 + r.below(3);
    let mut s = String::new();
    for i in 0..n {
        if r.chance(1, 2) {
            s.push(' ');
        }
        if !(r.chance(1, 10)) {
            s.push_str(&text(r));
        }
        let last = i + 1 == n;
        match r.below(12) {
            0 => s.push_str("\r\n"),
            1 if last => {}
            2 if last => s.push('\r'),
            _ => s.push('\n'),
        }
    }
    s
}

pub fn entry(r: &mut Rng) -> LedgerEntry<'static> {
    match r.below(16) {
        0 => LedgerEntry::Comment(TopLevelComment(Cow::Owned(multiline(r)))),
        1 => LedgerEntry::ApplyTag(ApplyTag {
            key: Cow::Owned(tag_word(r)),
            value: match r.below(3) {
                0 => None,
                1 => Some(MetadataValue::Text(Cow::Owned(text(r)))),
                _ => Some(MetadataValue::Expr(Cow::Owned("100 USD".to_string()))),
            },
        }),
        2 => {
            if r.chance(1, 2) {
                LedgerEntry::EndApplyTag
            } else {
                LedgerEntry::Include(IncludeFile(Cow::Owned(
                    r.pick(&["path/to/other.ledger", "*.ledger", "日本/元帳.ledger", "a b.ledger"]).to_string(),
                )))
            }
        }
        3 => {
            let n = r.below(4);
            let (w, style) = (1 + r.below(30) as usize, r.below(3));
            LedgerEntry::Account(AccountDeclaration {
                name: Cow::Owned(account(r, w, style)),
                details: (0..n)
                    .map(|_| match r.below(3) {
                        0 => AccountDetail::Comment(Cow::Owned(multiline(r))),
                        1 => AccountDetail::Note(Cow::Owned(multiline(r))),
                        _ => {
                            let (w, style) = (1 + r.below(12) as usize, r.below(3));
                            AccountDetail::Alias(Cow::Owned(account(r, w, style)))
                        }
                    })
                    .collect(),
            })
        }
        4 => {
            let n = r.below(5);
            LedgerEntry::Commodity(CommodityDeclaration {
                name: Cow::Owned(commodity(r, false)),
                details: (0..n)
                    .map(|_| match r.below(4) {
                        0 => CommodityDetail::Comment(Cow::Owned(multiline(r))),
                        1 => CommodityDetail::Note(Cow::Owned(multiline(r))),
                        2 => CommodityDetail::Alias(Cow::Owned(commodity(r, false))),
                        _ => CommodityDetail::Format(amount(r, true)),
                    })
                    .collect(),
            })
        }
        _ => LedgerEntry::Txn(transaction(r)),
    }
}

/// one posting under a fixed header: the systematic sweep over account widths
fn sweep_entry(r: &mut Rng, width: usize, style: u64, cs: ClearState, balance_only: bool, digits: usize) -> LedgerEntry<'static> {
    let a = Amount { value: pdec(r, digits), commodity: Cow::Owned(commodity(r, false)) };
    let mut p = Posting::new_untracked(account(r, width, style));
    p.clear_state = cs;
    if balance_only {
        p.balance = Some(ValueExpr::Amount(a));
    } else {
        p.amount = Some(PostingAmount { amount: ValueExpr::Amount(a), cost: None, lot: Lot::default() });
    }
    let mut t = Transaction::new(NaiveDate::from_ymd_opt(2024, 1, 1).unwrap(), "sweep");
    t.posts = vec![p];
    LedgerEntry::Txn(t)
}

/// expression shapes that exercise every arm of fmt_with_alignment (Partial/Complete on either
/// side of a binary operator, under parentheses and negation)
fn shaped_expr(r: &mut Rng, shape: u64) -> ValueExpr<'static> {
    let lit = |r: &mut Rng, with_commodity: bool| -> Expr<'static> {
        let n = int_digits(r);
        Expr::Value(Box::new(ValueExpr::Amount(Amount {
            value: pdec(r, n),
            commodity: Cow::Owned(if with_commodity { commodity(r, false) } else { String::new() }),
        })))
    };
    let bin = |op: BinaryOp, l: Expr<'static>, rr: Expr<'static>| Expr::Binary(BinaryOpExpr { op, lhs: Box::new(l), rhs: Box::new(rr) });
    let neg = |e: Expr<'static>| Expr::Unary(UnaryOpExpr { op: UnaryOp::Negate, expr: Box::new(e) });
    let paren = |e: Expr<'static>| Expr::Value(Box::new(ValueExpr::Paren(e)));
    let e = match shape % 8 {
        0 => bin(BinaryOp::Mul, lit(r, false), lit(r, true)),
        1 => bin(BinaryOp::Mul, lit(r, true), lit(r, false)),
        2 => bin(BinaryOp::Add, lit(r, false), lit(r, false)),
        3 => neg(lit(r, true)),
        4 => {
            let inner = bin(BinaryOp::Add, lit(r, false), lit(r, false));
            bin(BinaryOp::Mul, paren(inner), lit(r, true))
        }
        5 => {
            let inner = bin(BinaryOp::Sub, lit(r, false), lit(r, true));
            bin(BinaryOp::Div, neg(paren(inner)), lit(r, false))
        }
        6 => {
            let a = bin(BinaryOp::Div, lit(r, false), lit(r, false));
            let b = bin(BinaryOp::Mul, lit(r, false), lit(r, true));
            bin(BinaryOp::Add, a, b)
        }
        _ => bin(BinaryOp::Add, lit(r, true), lit(r, true)),
    };
    ValueExpr::Paren(e)
}

fn shaped_entry(r: &mut Rng, shape: u64, delta: i64, balance_only: bool) -> LedgerEntry<'static> {
    let v = shaped_expr(r, shape);
    let cs = clear_state(r);
    let target = if balance_only {
        let s = shown(&v);
        let trailing = UnicodeWidthStr::width_cjk(s.as_str()) as i64 - align_of(&v) as i64;
        50 + trailing - 3 + delta
    } else {
        48 - 2 - align_of(&v) as i64 + delta
    };
    let width = (target - mark_len(cs) as i64).clamp(1, 70) as usize;
    let style = r.below(3);
    let mut p = Posting::new_untracked(account(r, width, style));
    p.clear_state = cs;
    if balance_only {
        p.balance = Some(v);
    } else {
        p.amount = Some(PostingAmount { amount: v, cost: None, lot: Lot::default() });
    }
    let mut t = Transaction::new(NaiveDate::from_ymd_opt(2024, 1, 1).unwrap(), "shapes");
    t.posts = vec![p];
    LedgerEntry::Txn(t)
}

// ------------------------------------------------------------------------------------------
// observation and case writing
// ------------------------------------------------------------------------------------------

pub fn display(e: &LedgerEntry) -> Option<String> {
    std::panic::catch_unwind(AssertUnwindSafe(|| format!("{}", DisplayContext::default().as_display(e)))).ok()
}

fn out_term(o: &Option<String>) -> String {
    match o {
        Some(s) => format!("(OText {} {})", s.len(), coq::packed(s.as_bytes())),
        None => "OPanic".to_string(),
    }
}

pub struct Run<'a> {
    pub sh: &'a mut Shards,
    pub st: &'a mut Stats,
    pub worker: Worker,
}

impl Run<'_> {
    /// a tree printed by the real Display
    pub fn display_case(&mut self, e: &LedgerEntry, tag: &str, origin: Value) -> Option<String> {
        let out = display(e);
        let mut p = Printer::new(false);
        let term = p.entry(e);
        let nt = entry_nontrivial(e);
        self.st.eval(&(0u8, term.clone()), nt);
        self.st.count(&format!("display:{}", tag));
        if p.wide {
            self.st.count("with-non-ascii-measured-string");
        }
        if out.is_none() {
            self.st.count("impl:panic");
        }
        let rep = json!({"property": "C19", "kind": "display", "origin": origin, "tree": format!("{:?}", e),
                         "impl_output": out, "reproduce": "DisplayContext::default().as_display(&tree)"});
        if nt {
            self.st.sample(rep.clone(), 3);
        }
        self.sh.push(format!("Case 0 [{}] {} {}", term, p.widths_term(), out_term(&out)), vec![rep]);
        out
    }

    /// a text through the real parser and FormatOptions::format (in the worker process)
    pub fn format_case(&mut self, text: &str, tag: &str) {
        let reply = self.worker.request(text);
        let v = match reply {
            Reply::Ok(v) => v,
            Reply::Hang => {
                self.st.count("format:hang-not-a-case");
                return;
            }
            Reply::Died => {
                self.st.count("format:worker-died-not-a-case");
                return;
            }
        };
        let ok = match v["parse"].get("ok") {
            Some(ok) => ok.clone(),
            None => {
                // C19 quantifies over parsed ledgers
                self.st.count("format:unparsed-not-a-case");
                return;
            }
        };
        let out: Option<String> = v["format"].get("ok").and_then(|x| x.as_str()).map(|s| s.to_string());
        let terms: Vec<String> = ok["terms"].as_array().unwrap().iter().map(|t| t.as_str().unwrap().to_string()).collect();
        let nt = ok["nontrivial"].as_bool().unwrap_or(false);
        self.st.eval(&(1u8, text.to_string()), nt);
        self.st.count(&format!("format:{}", tag));
        self.st.add("format:entries", terms.len() as u64);
        if ok["wide"].as_bool().unwrap_or(false) {
            self.st.count("with-non-ascii-measured-string");
        }
        if out.is_none() {
            self.st.count("impl:format-failed-on-parsed-text");
        }
        let rep = json!({"property": "C19", "kind": "format", "text": text, "impl_output": out,
                         "reproduce": "FormatOptions::new().format(text)"});
        if nt && self.st.samples.len() < 5 && text.len() < 600 {
            self.st.sample(rep.clone(), 5);
        }
        self.sh.push(
            format!("Case 1 [{}] {} {}", terms.join("; "), ok["widths"].as_str().unwrap(), out_term(&out)),
            vec![rep],
        );
    }
}

pub fn ledger_files(dir: &str, out: &mut Vec<std::path::PathBuf>) {
    if let Ok(rd) = std::fs::read_dir(dir) {
        let mut ps: Vec<_> = rd.filter_map(|e| e.ok()).map(|e| e.path()).collect();
        ps.sort();
        for p in ps {
            if p.is_dir() {
                ledger_files(p.to_str().unwrap(), out);
            } else if p.extension().map(|x| x == "ledger").unwrap_or(false) {
                out.push(p);
            }
        }
    }
}

/// the case of a replay record (also the format of corpus/C19/*.json)
fn replay_record(run: &mut Run, v: &Value) {
    match v.get("kind").and_then(|k| k.as_str()) {
        Some("format") => {
            if let Some(t) = v.get("text").and_then(|t| t.as_str()) {
                run.format_case(t, "replay");
            }
        }
        Some("display") => {
            let o = &v["origin"];
            let seed = o["seed"].as_u64().unwrap_or(1);
            let stream = o["stream"].as_u64().unwrap_or(0);
            match o["gen"].as_str() {
                Some("entry") => {
                    let mut r = Rng::new(seed, stream);
                    let e = entry(&mut r);
                    run.display_case(&e, "replay", o.clone());
                }
                Some("shaped") => {
                    let mut r = Rng::new(seed, stream);
                    let a = &o["args"];
                    let e = shaped_entry(&mut r, a[0].as_u64().unwrap_or(0), a[1].as_i64().unwrap_or(0), a[2].as_bool().unwrap_or(false));
                    run.display_case(&e, "replay", o.clone());
                }
                Some("sweep") => {
                    let mut r = Rng::new(seed, stream);
                    let a = &o["args"];
                    let cs = match a[2].as_u64().unwrap_or(0) {
                        1 => ClearState::Cleared,
                        2 => ClearState::Pending,
                        _ => ClearState::Uncleared,
                    };
                    let e = sweep_entry(&mut r, a[0].as_u64().unwrap_or(1) as usize, a[1].as_u64().unwrap_or(0), cs,
                                        a[3].as_bool().unwrap_or(false), a[4].as_u64().unwrap_or(1) as usize);
                    run.display_case(&e, "replay", o.clone());
                }
                _ => {}
            }
        }
        _ => {}
    }
}

pub const HAND_WRITTEN: &[&str] = &[
    // the input of format::tests
    "; Top\n; level\n#comment\n%can\n|have several prefixes.\n\n; second\n; round\n\naccount  Foo\t\n alias Bar\t\n   note これは何でしょうか\n  alias Baz\n\ncommodity  USD\t\n \talias 米ドル\t\n \talias $\t\n\napply    tag   foo\napply tag key: value\napply tag key:: 10 USD\n\nend  apply   tag\n\nend apply tag\nend apply tag\n\ninclude        path/to/other.ledger\n\n2021/03/12 Opening Balance  ; initial balance\n Assets:Bank     = 1000 CHF\n Equity\n\n2021/05/14 !(#txn-1) My Grocery\n    Expenses:Grocery\t10 CHF\n    Expenses:Commissions    1 USD   @ 0.98 CHF ; Payee: My Card\n    ; My card took commission\n    ; :financial:経済:\n    Assets:Bank  -20 CHF=1CHF\n    Expenses:Household  = 0\n    Assets:Complex  (-10 * 2.1 $) @ (1 $ + 1 $) = 2.5 $\n    Assets:Broker  -2 SPINX (bought before Xmas) {100 USD} [2010/12/23] @ 10000 USD\n    Liabilities:Comma      5,678.00 CHF @ 1,000,000 JPYRIN = -123,456.12 CHF\n",
    // F11: balance-only postings with accounts around and beyond the balance column
    "2024/01/01 x\n    Assets:AAAAAAAAAAAAAAAAAAAAAAAAAAAAAAAAAAAAAAAAAAAAAAAAAAAAAAA  = 0\n    B  1 USD\n",
    "2024/01/01 x\n    Assets:AAAAAAAAAAAAAAAAAAAAAAAAAAAAAAAAAAAAAAAAAA  = 0\n    Assets:AAAAAAAAAAAAAAAAAAAAAAAAAAAAAAAAAAAAAAAAAAA  = 0\n    Assets:AAAAAAAAAAAAAAAAAAAAAAAAAAAAAAAAAAAAAAAAAAAA  = 0\n    Assets:AAAAAAAAAAAAAAAAAAAAAAAAAAAAAAAAAAAAAAAAAAAAA  = 0\n    Assets:AAAAAAAAAAAAAAAAAAAAAAAAAAAAAAAAAAAAAAAAAAAAAA  = 0\n    Assets:AAAAAAAAAAAAAAAAAAAAAAAAAAAAAAAAAAAAAAAAAAAAAAA  = 0\n    * Assets:AAAAAAAAAAAAAAAAAAAAAAAAAAAAAAAAAAAAAAAAAAAAAAAAAAAA  = 10 USD\n    ! Assets:AAAAAAAAAAAAAAAAAAAAAAAAAAAAAAAAAAAAAAAAAAAAAAAAAAAAAAAA  = 1,000.00 円\n",
    // F10: sub-directive comments
    "account Foo\n  ; c1\n  ;c2\n  note n1\n\ncommodity USD\n  ; c2\n  format 1,000.00 USD\n",
    // wide accounts around the amount column
    "2024/02/03 * スーパー\n    費用:食費:外食:ランチ:東京:新宿:西口:地下        1,200 円\n    費用:食費:外食:ランチ:東京:新宿:西口:地下街        1,200 円\n    ! 資産:現金                 -2,400 円 = 10,000 円\n    αβγ:é°                       1 USD @ 150 円\n",
];

pub fn run(o: &Opts) {
    let mut st = Stats::new();
    // shards of about 400 kB: coqc needs about 0.5 GB and 6 s for each (16 run in parallel)
    let mut sh = Shards::new(
        &o.out,
        if o.thorough { o.shards * 8 } else { o.shards },
        "From Coq Require Import List NArith ZArith Uint63.\nFrom Okv Require Import Model.Lit Model.Syntax Run.Unpack Run.Classify_C19.\nImport ListNotations.\nOpen Scope N_scope.",
    );
    st.rule = "a case is a syntax tree (built directly, or returned by the real parser for a text) with the text the real printer wrote for it; non-trivial = some posting has account width + alignment within 6 columns of the branch of get_column that decides it (48 for amounts, 50 + trailing for balance-only), or a measured string (account, printed balance) is not printable ASCII; distinct by tree (display leg) or by input text (format leg)".to_string();
    st.assumptions.push("display leg: trees are built directly; accounts are non-empty, without leading/trailing/double spaces; years -262000..262000; DisplayContext::default() (no commodity precisions), as FormatOptions::format uses".to_string());
    st.assumptions.push("format leg: only texts the real parser accepts become cases (C19 quantifies over parsed ledgers); parser and format run in a child process with a timeout".to_string());
    st.assumptions.push("display widths come from unicode-width (the version in /repo/Cargo.lock) as an oracle: one entry per measured non-ASCII string".to_string());
    let mut run = Run { sh: &mut sh, st: &mut st, worker: Worker::spawn() };

    // replay mode: just that case
    if let Some(i) = o.extra.iter().position(|a| a == "--replay") {
        if let Some(p) = o.extra.get(i + 1) {
            if let Ok(text) = std::fs::read_to_string(p) {
                if let Ok(v) = serde_json::from_str::<Value>(&text) {
                    replay_record(&mut run, &v);
                }
            }
        }
        drop(run);
        sh.finish(&st);
        return;
    }

    // 1. corpus: past findings and boundary inputs first
    if let Ok(rd) = std::fs::read_dir(&o.corpus) {
        let mut files: Vec<_> = rd.filter_map(|e| e.ok()).map(|e| e.path()).collect();
        files.sort();
        for p in files {
            if let Ok(text) = std::fs::read_to_string(&p) {
                if let Ok(v) = serde_json::from_str::<Value>(&text) {
                    replay_record(&mut run, &v);
                }
            }
        }
    }
    for t in HAND_WRITTEN {
        run.format_case(t, "hand-written");
    }
    let mut seeds = Vec::new();
    ledger_files("/repo/testdata", &mut seeds);
    ledger_files("/repo/cli/tests/testdata", &mut seeds);
    for p in &seeds {
        if let Ok(t) = std::fs::read_to_string(p) {
            if t.len() < 20000 && t.ends_with('\n') {
                run.format_case(&t, "repo-ledger-file");
            }
        }
    }

    // 2. systematic sweep: every account width 1..60 x style x clear mark x amount/balance-only
    let digit_choices: &[usize] = if o.thorough { &[1, 2, 3, 4, 5, 7, 9, 12, 16, 20] } else { &[1, 4, 9] };
    let mut k: u64 = 0;
    for width in 1..=60usize {
        for style in 0..3u64 {
            for (ci, cs) in [ClearState::Uncleared, ClearState::Cleared, ClearState::Pending].iter().enumerate() {
                for balance_only in [false, true] {
                    for &dg in digit_choices {
                        k += 1;
                        let stream = 1_000_000 + k;
                        let mut r = Rng::new(o.seed, stream);
                        let e = sweep_entry(&mut r, width, style, *cs, balance_only, dg);
                        let origin = json!({"gen": "sweep", "seed": o.seed, "stream": stream,
                                            "args": [width, style, ci, balance_only, dg]});
                        run.display_case(&e, "sweep", origin);
                    }
                }
            }
        }
    }

    // 2b. expression shapes around the boundary
    let reps = if o.thorough { 6 } else { 1 };
    for shape in 0..8u64 {
        for delta in -5..=5i64 {
            for balance_only in [false, true] {
                for _ in 0..reps {
                    k += 1;
                    let stream = 1_000_000 + k;
                    let mut r = Rng::new(o.seed, stream);
                    let e = shaped_entry(&mut r, shape, delta, balance_only);
                    let origin = json!({"gen": "shaped", "seed": o.seed, "stream": stream, "args": [shape, delta, balance_only]});
                    run.display_case(&e, "shaped-expression", origin);
                }
            }
        }
    }

    // 3. random entries of every kind; printed entries are also formatted as text, in groups
    let n = if o.thorough { 30000 } else { 1500 };
    let mut pending: Vec<String> = Vec::new();
    let mut gr = Rng::new(o.seed, 19);
    for i in 0..n {
        let stream = 2_000_000 + i as u64;
        let mut r = Rng::new(o.seed, stream);
        let e = entry(&mut r);
        let origin = json!({"gen": "entry", "seed": o.seed, "stream": stream});
        if let Some(text) = run.display_case(&e, "random", origin) {
            pending.push(text);
        }
        if pending.len() >= 1 + gr.below(4) as usize {
            // what `format` writes: every entry followed by one empty line
            let mut t = String::new();
            for p in &pending {
                t.push_str(p);
                t.push('\n');
            }
            pending.clear();
            if i % 3 == 0 {
                run.format_case(&t, "printed-entries");
            }
        }
    }
    let hangs = run.worker.hangs;
    drop(run);
    st.add("worker:hangs", hangs);
    sh.finish(&st);
}
